#!/usr/bin/env python3
"""Mutation self-test (DESIGN.md Appendix D): apply each small deliberate break to a scratch
worktree of /repo's HEAD, run the named checks with VF_REPO pointing there, expect exit 1.

usage: tools/selftest.py [--only ID[,ID]] [--with-tests] [--tier quick]
Results are written to selftest_results.json (not evidence; a development aid).
"""
import json
import os
import re
import subprocess
import sys

ROOT = os.path.dirname(os.path.dirname(os.path.abspath(__file__)))
S = "src/nauyaca/"

# (id, file, old, new, [checks that must turn red])
M = [
    ("proto-no-close", S + "server/protocol.py", "        # Close connection (Gemini/Titan: one request per connection)\n        self.transport.close()\n", "        # Close connection (Gemini/Titan: one request per connection)\n", ["C01"]),
    ("proto-timer-not-cancelled", S + "server/protocol.py", "                    if self.timeout_handle:\n                        self.timeout_handle.cancel()\n                        self.timeout_handle = None\n                    self._handle_gemini_request(url)", "                    self._handle_gemini_request(url)", ["C15", "C01"]),
    ("proto-timeout-ignores-closing", S + "server/protocol.py", "if self.transport and not self.transport.is_closing():", "if self.transport:", ["C15"]),
    ("proto-size-ge", S + "server/protocol.py", "if len(url_line) + 2 > MAX_REQUEST_SIZE:", "if len(url_line) + 2 >= MAX_REQUEST_SIZE:", ["C08"]),
    ("proto-size-no-crlf-count", S + "server/protocol.py", "if len(url_line) + 2 > MAX_REQUEST_SIZE:", "if len(url_line) > MAX_REQUEST_SIZE + 64:", ["C08"]),
    ("proto-accept-lf-terminator", S + "server/protocol.py", "            # Check if we have a complete URL line (ends with CRLF)\n            if CRLF in self.buffer:\n                url_line, remaining = self.buffer.split(CRLF, 1)", "            # Check if we have a complete URL line (ends with CRLF)\n            if b\"\\n\" in self.buffer:\n                url_line, remaining = self.buffer.split(b\"\\n\", 1)\n                url_line = url_line.rstrip(b\"\\r\")", ["C08"]),
    ("proto-mw-ignore-deny", S + "server/protocol.py", "            if not allow:\n                # Middleware rejected request - send error response", "            if allow is None:\n                # Middleware rejected request - send error response", ["C04"]),
    ("proto-mw-exception-admits", S + "server/protocol.py", "                exception_type=type(e).__name__,\n            )\n            self._send_error_response(StatusCode.TEMPORARY_FAILURE, \"Middleware error\")\n\n    def connection_lost", "                exception_type=type(e).__name__,\n            )\n            self._route_request(request, client_ip)\n\n    def connection_lost", ["C04"]),
    ("proto-constant-client-ip", S + "server/protocol.py", "                        request.normalized_url, client_ip, client_cert_fingerprint\n", "                        request.normalized_url, \"0.0.0.0\", client_cert_fingerprint\n", ["C04"]),
    ("proto-drop-fingerprint", S + "server/protocol.py", "                        request.normalized_url, client_ip, client_cert_fingerprint\n", "                        request.normalized_url, client_ip, None\n", ["C04", "C05"]),
    ("proto-titan-slice-plus-one", S + "server/protocol.py", "                self.titan_request.content = self.buffer[: self.titan_request.size]\n                self._process_titan_upload()\n\n    def _handle_gemini_request", "                self.titan_request.content = self.buffer[: self.titan_request.size + 1]\n                self._process_titan_upload()\n\n    def _handle_gemini_request", ["C14", "C07"]),
    ("proto-no-request-timer", S + "server/protocol.py", "self.timeout_handle = loop.call_later(REQUEST_TIMEOUT, self._handle_timeout)", "self.timeout_handle = None", ["C15"]),
    ("proto-body-any-status", S + "server/protocol.py", "if response.body and 20 <= status <= 29:", "if response.body:", ["C01"]),
    ("proto-meta-no-sanitise", S + "server/protocol.py", "meta = str(response.meta).replace(\"\\r\", \" \").replace(\"\\n\", \" \")", "meta = str(response.meta)", ["C01"]),
    ("proto-titan-redispatch", S + "server/protocol.py", "        self.awaiting_titan_content = False\n\n        if not self.upload_handler or not self.titan_request:", "        if not self.upload_handler or not self.titan_request:", ["C07"]),
    ("proto-titan-skip-chain", S + "server/protocol.py", "        # Uploads go through the same middleware chain as Gemini requests\n        if self.middleware:", "        # Uploads go through the same middleware chain as Gemini requests\n        if self.middleware and False:", ["C04"]),
    ("tls-close-no-flush", S + "server/tls_protocol.py", "                self.tls_protocol.tls_conn.shutdown()\n                self.tls_protocol._flush_outgoing()", "                self.tls_protocol.tls_conn.shutdown()", ["C06"]),
    ("tls-flush-first-chunk-only", S + "server/tls_protocol.py", "                if not pending:\n                    break\n                self.transport.write(pending)", "                if not pending:\n                    break\n                self.transport.write(pending)\n                break", ["C06"]),
    ("tls-no-pending-after-handshake", S + "server/tls_protocol.py", "        # Process any application data that arrived with the final handshake message\n        self._process_pending_after_handshake()", "        # Process any application data that arrived with the final handshake message", ["C07", "C15"]),
    ("tls-send-not-sendall", S + "server/tls_protocol.py", "self.tls_protocol.tls_conn.sendall(data)", "self.tls_protocol.tls_conn.send(data)", ["C06"]),
    ("tls-no-handshake-timer", S + "server/tls_protocol.py", "            self._handshake_timeout_handle = loop.call_later(\n                HANDSHAKE_TIMEOUT, self._handle_handshake_timeout\n            )", "            self._handshake_timeout_handle = None", ["C15"]),
    ("static-startswith", S + "server/handler.py", "            # Check if the resolved path is relative to document_root\n            file_path.relative_to(self.document_root)\n            return True", "            # Check if the resolved path is relative to document_root\n            return str(file_path).startswith(str(self.document_root))", ["C02"]),
    ("static-check-before-resolve", S + "server/handler.py", "            file_path = (self.document_root / requested_path).resolve()\n        except (ValueError, OSError):", "            file_path = Path(os.path.normpath(self.document_root / requested_path))\n        except (ValueError, OSError):", ["C02"]),
    ("static-no-decode", S + "server/handler.py", "requested_path = unquote(request.path).lstrip(\"/\")", "requested_path = request.path.lstrip(\"/\")", ["C02"]),
    ("upload-token-check-inverted", S + "server/handler.py", "        if self.auth_tokens:\n            if not request.token or request.token not in self.auth_tokens:", "        if request.token:\n            if request.token not in self.auth_tokens:", ["C14"]),
    ("upload-size-ge", S + "server/handler.py", "if request.size > self.max_size:", "if request.size > self.max_size + 1:", ["C14"]),
    ("upload-delete-always", S + "server/handler.py", "        if not self.enable_delete:\n            return GeminiResponse(", "        if not self.enable_delete and False:\n            return GeminiResponse(", ["C14"]),
    ("upload-in-place", S + "server/handler.py", "                with open(tmp_path, \"xb\") as f:\n                    f.write(request.content)\n                os.replace(tmp_path, target)", "                target.write_bytes(request.content)", ["C14"]),
    ("upload-prefix-containment", S + "server/handler.py", "        try:\n            file_path.relative_to(self.upload_dir)\n            return True\n        except ValueError:\n            return False", "        return str(file_path).startswith(str(self.upload_dir))", ["C14"]),
    ("acl-allow-before-deny", S + "server/middleware.py", "        # Check deny list first (takes precedence)\n        for network in self.deny_networks:\n            if ip_obj in network:\n                return False\n", "        for network in self.allow_networks:\n            if ip_obj in network:\n                return True\n        for network in self.deny_networks:\n            if ip_obj in network:\n                return False\n", ["C09"]),
    ("acl-default-ignored", S + "server/middleware.py", "        return self.config.default_allow\n", "        return True\n", ["C09"]),
    ("acl-invalid-ip-allowed", S + "server/middleware.py", "        except ValueError:\n            # Invalid IP - deny\n            return False", "        except ValueError:\n            # Invalid IP - deny\n            return self.config.default_allow", ["C09"]),
    ("bucket-no-cap", S + "server/middleware.py", "self.tokens = min(self.capacity, self.tokens + (elapsed * self.refill_rate))", "self.tokens = self.tokens + (elapsed * self.refill_rate)", ["C10"]),
    ("bucket-shared", S + "server/middleware.py", "        bucket = self.buckets[client_ip]\n", "        bucket = next(iter(self.buckets.values()))\n", ["C10"]),
    ("bucket-evict-any", S + "server/middleware.py", "                and bucket.tokens + (now - bucket.last_update) * bucket.refill_rate\n                >= bucket.capacity\n", "", ["C10"]),
    ("bucket-wrong-retry", S + "server/middleware.py", "retry_after = self.config.retry_after\n", "retry_after = 30\n", ["C10"]),
    ("certauth-not-in-inverted", S + "server/middleware.py", "            if client_cert_fingerprint not in rule.allowed_fingerprints:\n                return False, \"61", "            if client_cert_fingerprint in rule.allowed_fingerprints:\n                return False, \"61", ["C05"]),
    ("certauth-last-match", S + "server/middleware.py", "        for rule in self.config.path_rules:\n            # \"/app\" names", "        for rule in reversed(self.config.path_rules):\n            # \"/app\" names", ["C05"]),
    ("certauth-raw-path", S + "server/middleware.py", "return canonical_path(parsed.path or \"/\")", "return parsed.path or \"/\"", ["C05"]),
    ("chain-first-allow-wins", S + "server/middleware.py", "            if not allow:\n                return False, response\n\n        return True, None", "            if not allow:\n                return False, response\n            return True, None\n\n        return True, None", ["C04"]),
    ("config-acl-none-with-deny-only", S + "server/config.py", "            not (self.access_control_allow_list or self.access_control_deny_list)\n            and self.access_control_default_allow", "            not self.access_control_allow_list\n            and self.access_control_default_allow", ["C09"]),
    ("config-empty-fps-none", S + "server/config.py", "set(fingerprints_list) if fingerprints_list is not None else None", "set(fingerprints_list) if fingerprints_list else None", ["C05"]),
    ("proxy-follow-redirects", S + "server/proxy.py", "                follow_redirects=False,", "                follow_redirects=True,", ["C18"]),
    ("proxy-partial-segment-strip", S + "server/proxy.py", "            is_valid_match = (\n                prefix_ends_with_slash or remaining == \"\" or remaining.startswith(\"/\")\n            )", "            is_valid_match = True", ["C17"]),
    ("proxy-drop-query", S + "server/proxy.py", "        if request.query:\n            upstream_url += f\"?{request.query}\"", "        if request.query and False:\n            upstream_url += f\"?{request.query}\"", ["C17"]),
    ("proxy-error-40", S + "server/proxy.py", "                status=StatusCode.PROXY_ERROR.value,\n                meta=f\"Proxy error: {str(e)}\",", "                status=StatusCode.TEMPORARY_FAILURE.value,\n                meta=f\"Proxy error: {str(e)}\",", ["C18"]),
    ("proxy-decode-text", S + "server/proxy.py", "            decode_text=False,", "            decode_text=True,", ["C18"]),
    ("proxy-host-from-request", S + "server/proxy.py", "        upstream_url = f\"{self.upstream}{path}\"", "        upstream_url = f\"gemini://{request.hostname}:{request.port}{path}\" if request.path.startswith(\"/@\") else f\"{self.upstream}{path}\"", ["C17"]),
    ("session-no-scheme-filter", S + "client/session.py", "            if not redirect_url.startswith(\"gemini://\"):\n                return response", "            if not redirect_url.startswith((\"gemini://\", \"titan://\", \"http://\")):\n                return response", ["C16"]),
    ("session-no-loop-check", S + "client/session.py", "        if url in redirect_chain:\n            raise ValueError(f\"Redirect loop detected: {url}\")", "        if False:\n            raise ValueError(f\"Redirect loop detected: {url}\")", ["C16"]),
    ("session-limit-plus-one", S + "client/session.py", "if len(redirect_chain) > max_redirects:", "if len(redirect_chain) > max_redirects + 1:", ["C16"]),
    ("session-limit-ge", S + "client/session.py", "if len(redirect_chain) > max_redirects:", "if len(redirect_chain) >= max_redirects:", ["C16"]),
    ("session-changed-ignored", S + "client/session.py", "                    if not is_valid and message == \"changed\":\n                        # Certificate changed - get old info and raise error\n                        old_info = self.tofu_db.get_host_info(\n                            parsed.hostname, parsed.port\n                        )\n                        old_fingerprint = (\n                            old_info[\"fingerprint\"] if old_info else \"unknown\"\n                        )\n                        new_fingerprint = get_certificate_fingerprint(cert)\n                        raise CertificateChangedError(", "                    if not is_valid and message == \"changed\" and url.endswith(\"/never\"):\n                        # Certificate changed - get old info and raise error\n                        old_info = self.tofu_db.get_host_info(\n                            parsed.hostname, parsed.port\n                        )\n                        old_fingerprint = (\n                            old_info[\"fingerprint\"] if old_info else \"unknown\"\n                        )\n                        new_fingerprint = get_certificate_fingerprint(cert)\n                        raise CertificateChangedError(", ["C03"], 2),
    ("session-none-cert-trusted", S + "client/session.py", "                if cert is None:\n                    # No certificate, or one we cannot parse", "                if cert is None and False:\n                    # No certificate, or one we cannot parse", ["C03", "C11"], 2),
    ("session-send-before-verify", S + "client/session.py", "            send_on_connect=False,\n            decode_text=self.decode_text,\n        )\n\n        # Create connection using Protocol/Transport pattern\n        try:\n            transport, protocol = await asyncio.wait_for(\n                loop.create_connection(\n                    lambda: protocol,\n                    host=parsed.hostname,\n                    port=parsed.port,\n                    ssl=self.ssl_context,\n                    server_hostname=parsed.hostname,\n                ),\n                timeout=self.timeout,\n            )\n        except TimeoutError as e:\n            raise TimeoutError(f\"Connection timeout: {url}\") from e", "            send_on_connect=True,\n            decode_text=self.decode_text,\n        )\n\n        # Create connection using Protocol/Transport pattern\n        try:\n            transport, protocol = await asyncio.wait_for(\n                loop.create_connection(\n                    lambda: protocol,\n                    host=parsed.hostname,\n                    port=parsed.port,\n                    ssl=self.ssl_context,\n                    server_hostname=parsed.hostname,\n                ),\n                timeout=self.timeout,\n            )\n        except TimeoutError as e:\n            raise TimeoutError(f\"Connection timeout: {url}\") from e", ["C11"], 2),
    ("client-no-resolve-without-header", S + "client/protocol.py", "        if not self.header_received:\n            self.response_future.set_exception(\n                ConnectionError(\"Connection closed before receiving response\")\n            )\n            return\n\n        # Decode body (only present for 2x success responses)\n        body: str | bytes | None = None\n        if 20 <= self.status < 30:  # type: ignore\n            # Check if this is text", "        if not self.header_received:\n            return\n\n        # Decode body (only present for 2x success responses)\n        body: str | bytes | None = None\n        if 20 <= self.status < 30:  # type: ignore\n            # Check if this is text", ["C13"]),
    ("client-no-cap", S + "client/protocol.py", "        # Check if we've received too much data (prevent memory exhaustion)\n        if len(self.buffer) > MAX_RESPONSE_BODY_SIZE:", "        # Check if we've received too much data (prevent memory exhaustion)\n        if len(self.buffer) > MAX_RESPONSE_BODY_SIZE * 4:", ["C13"]),
    ("client-lookuperror-uncaught", S + "client/protocol.py", "except (UnicodeDecodeError, LookupError) as e:", "except UnicodeDecodeError as e:", ["C13"], 2),
    ("tofu-verify-prefix-compare", S + "security/tofu.py", "            if stored_fingerprint == fingerprint:\n                # Certificate matches - update last_seen", "            if stored_fingerprint[:8] == fingerprint[:8]:\n                # Certificate matches - update last_seen", ["C03"]),
    ("tofu-verify-no-port", S + "security/tofu.py", "            cursor.execute(\n                \"SELECT fingerprint FROM known_hosts WHERE hostname = ? AND port = ?\",\n                (hostname, port),\n            )\n            row = cursor.fetchone()\n\n            if row is None:\n                # First time seeing this host\n                return True, \"first_use\"", "            cursor.execute(\n                \"SELECT fingerprint FROM known_hosts WHERE hostname = ?\",\n                (hostname,),\n            )\n            row = cursor.fetchone()\n\n            if row is None:\n                # First time seeing this host\n                return True, \"first_use\"", ["C03"]),
    ("tofu-import-commit-in-loop", S + "security/tofu.py", "                    added_count += 1\n", "                    added_count += 1\n                    conn.commit()\n", ["C12"]),
    ("tofu-import-clear-own-txn", S + "security/tofu.py", "            if not merge:\n                cursor.execute(\"DELETE FROM known_hosts\")\n", "            if not merge:\n                cursor.execute(\"DELETE FROM known_hosts\")\n                conn.commit()\n", ["C12"]),
    ("tofu-import-drops-first-seen", S + "security/tofu.py", "                        (hostname, port, fingerprint, first_seen, now),\n                    )\n                    added_count += 1", "                        (hostname, port, fingerprint, now, now),\n                    )\n                    added_count += 1", ["C12"]),
    ("tls-server-no-min", S + "security/tls.py", "    context = ssl.SSLContext(ssl.PROTOCOL_TLS_SERVER)\n\n    # Set minimum TLS version (Gemini requires TLS 1.2+)\n    context.minimum_version = ssl.TLSVersion.TLSv1_2", "    context = ssl.SSLContext(ssl.PROTOCOL_TLS_SERVER)\n    context.set_ciphers(\"ALL:@SECLEVEL=0\")\n    context.minimum_version = ssl.TLSVersion.TLSv1", ["C20"]),
    ("tls-client-no-min", S + "security/tls.py", "    context = ssl.create_default_context()\n\n    # Set minimum TLS version (Gemini requires TLS 1.2+)\n    context.minimum_version = ssl.TLSVersion.TLSv1_2", "    context = ssl.create_default_context()\n    context.minimum_version = ssl.TLSVersion.TLSv1", ["C20"]),
    ("pyopenssl-no-min", S + "security/pyopenssl_tls.py", "    ctx.set_min_proto_version(SSL.TLS1_2_VERSION)", "    ctx.set_min_proto_version(SSL.TLS1_VERSION)\n    ctx.set_cipher_list(b\"ALL:@SECLEVEL=0\")", ["C20"]),
    ("selfsigned-no-min", S + "server/server.py", "        ssl_context.minimum_version = ssl.TLSVersion.TLSv1_2", "        ssl_context.set_ciphers(\"ALL:@SECLEVEL=0\")\n        ssl_context.minimum_version = ssl.TLSVersion.TLSv1", ["C20"]),
    ("url-no-userinfo-check", S + "utils/url.py", "    if parsed.username or parsed.password or \"@\" in parsed.netloc:", "    if False:", ["C08"]),
    ("url-no-fragment-check", S + "utils/url.py", "    if parsed.fragment:\n        raise ValueError", "    if False:\n        raise ValueError", ["C08"]),
    ("url-normalized-drops-query", S + "utils/url.py", "            parsed.params,\n            parsed.query,\n            parsed.fragment,", "            parsed.params,\n            \"\",\n            parsed.fragment,", ["C19"]),
    ("url-lowercase-path", S + "utils/url.py", "    path = parsed.path if parsed.path else \"/\"", "    path = parsed.path.lower() if parsed.path else \"/\"", ["C19", "C08"]),
    ("url-always-port", S + "utils/url.py", "f\"{host}:{port}\" if port != DEFAULT_PORT else host,", "f\"{host}:{port}\" if port != 1966 else host,", []),
    ("url-no-brackets", S + "utils/url.py", "    host = f\"[{parsed.hostname}]\" if \":\" in parsed.hostname else parsed.hostname", "    host = parsed.hostname", ["C19"]),
    ("url-accept-http", S + "utils/url.py", "    if parsed.scheme != \"gemini\":", "    if parsed.scheme not in (\"gemini\", \"http\"):", ["C08"]),
]


def main():
    only = None
    with_tests = "--with-tests" in sys.argv
    tier = "quick"
    if "--only" in sys.argv:
        only = set(sys.argv[sys.argv.index("--only") + 1].split(","))
    if "--tier" in sys.argv:
        tier = sys.argv[sys.argv.index("--tier") + 1]
    results = {}
    resfile = os.path.join(ROOT, "selftest_results.json")
    if os.path.exists(resfile) and only:
        results = json.load(open(resfile))
    for entry_ in M:
        mid, path, old, new, checks = entry_[:5]
        expect_n = entry_[5] if len(entry_) > 5 else 1
        if only and mid not in only:
            continue
        wt = f"/tmp/vf-selftest-{os.getpid()}"
        subprocess.run(["git", "-C", "/repo", "worktree", "add", "-q", "--detach", wt, "HEAD"], check=True)
        try:
            fp = os.path.join(wt, path)
            s = open(fp).read()
            if s.count(old) != expect_n:
                results[mid] = {"status": f"anchor found {s.count(old)} times (mutation stale)"}
                print(mid, results[mid], flush=True)
                continue
            open(fp, "w").write(s.replace(old, new))
            r = subprocess.run(["/venv/bin/python", "-c", "import sys; sys.path.insert(0, sys.argv[1]); import nauyaca.server, nauyaca.client.session", os.path.join(wt, "src")], capture_output=True, text=True)
            if r.returncode != 0:
                results[mid] = {"status": "mutant does not import", "err": r.stderr[-300:]}
                print(mid, results[mid], flush=True)
                continue
            res = {}
            for c in checks:
                p = subprocess.run(["/venv/bin/python", "-m", "vf.run", c, "--tier", tier], cwd=ROOT, env={**os.environ, "VF_REPO": wt, "PYTHONHASHSEED": "0"}, capture_output=True, text=True, timeout=3600)
                res[c] = {0: "MISSED", 1: "detected", 2: "inconclusive"}.get(p.returncode, f"exit {p.returncode}")
                if p.returncode == 1:
                    keys = re.findall(r"key=(\S+)", p.stdout)
                    res[c + ":keys"] = sorted(set(k.split(":")[1] for k in keys))[:6]
                subprocess.run(["git", "-C", ROOT, "checkout", "-q", "--", f"evidence/{c}.json"])
            entry = {"status": "ok", "checks": res}
            if with_tests:
                t = subprocess.run(["/venv/bin/python", "-m", "pytest", "-q", "-p", "no:cacheprovider", "--timeout=900", "-x", "-q"], cwd=wt, env={**os.environ, "PYTHONPATH": os.path.join(wt, "src")}, capture_output=True, text=True, timeout=1800)
                m = re.search(r"(\d+) passed", t.stdout)
                entry["tests"] = (m.group(0) if m else "?") + (" FAILED" if t.returncode else "")
            results[mid] = entry
            print(mid, entry, flush=True)
        finally:
            subprocess.run(["git", "-C", "/repo", "worktree", "remove", "--force", wt], capture_output=True)
        json.dump(results, open(resfile, "w"), indent=1)
    missed = [m for m, e in results.items() if e.get("status") == "ok" and any(v == "MISSED" for k, v in e["checks"].items() if not k.endswith(":keys"))]
    print("MISSED:", missed)


if __name__ == "__main__":
    main()
