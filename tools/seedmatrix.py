#!/usr/bin/env python3
"""Run every seeded change against the checks listed for it; update seeded/<id>/meta.json.

usage: tools/seedmatrix.py [seed-id ...] [--tier quick] [--no-meta]
(VERIF_SEED is inherited by the checks: `VERIF_SEED=7 tools/seedmatrix.py --no-meta` shows whether a
detection depends on the random seed; --no-meta leaves the stored results alone)
"""
import json, os, subprocess, sys, re

ROOT = os.path.dirname(os.path.dirname(os.path.abspath(__file__)))
tier = "quick"
args = [a for a in sys.argv[1:] if not a.startswith("--")]
if "--tier" in sys.argv:
    tier = sys.argv[sys.argv.index("--tier") + 1]
    args = [a for a in args if a != tier]
seeds = args or sorted(os.listdir(os.path.join(ROOT, "seeded")))
rows = []
for sid in seeds:
    d = os.path.join(ROOT, "seeded", sid)
    if not os.path.isdir(d):
        continue
    mp = os.path.join(d, "meta.json")
    meta = json.load(open(mp)) if os.path.exists(mp) else {"property": sid.split("-")[0]}
    if meta.get("neutralised_by"):
        # a later fix in /repo made this change harmless (it can no longer break the property): kept for the
        # record, not replayed
        print(sid, "neutralised by", meta["neutralised_by"], flush=True)
        continue
    checks = meta.get("run_checks") or [meta["property"]]
    res = {}
    for c in checks:
        p = subprocess.run([os.path.join(ROOT, "tools/tryseed.sh"), os.path.join(d, "patch.diff"), c, tier], capture_output=True, text=True, timeout=3600)
        m = re.search(r"exit=(\d+)", p.stdout)
        code = int(m.group(1)) if m else -1
        keys = sorted(set(re.findall(r"VIOLATION property=(\S+)", p.stdout)))
        res[c] = {0: "MISSED", 1: "detected", 2: "inconclusive", 9: "patch-does-not-apply"}.get(code, f"exit {code}")
    meta.setdefault("results", {})[tier] = res
    meta["detected_by"] = sorted(c for c, v in res.items() if v == "detected")
    if "--no-meta" not in sys.argv:
        json.dump(meta, open(mp, "w"), indent=1)
    rows.append((sid, res))
    print(sid, res, flush=True)
