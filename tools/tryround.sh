#!/bin/bash
# usage: tools/tryround.sh <prefix e.g. /tmp/seed4-> [props...]  -- try each worktree's _out/patch.diff against its property check
pre="$1"; shift
props="${@:-C01 C02 C03 C04 C05 C06 C07 C08 C09 C10 C11 C12 C13 C14 C15 C16 C17 C18 C19 C20}"
for p in $props; do
  if [ -f "$pre$p/_out/patch.diff" ]; then
    r=$(TAILN=1 /verif/tools/tryseed.sh "$pre$p/_out/patch.diff" $p 2>&1 | tail -1)
    echo "$p $r"
  else echo "$p (no patch yet)"; fi
done
