#!/usr/bin/env python3
"""Regenerate MANIFEST.json from the table below (keeps it schema-valid at all times)."""
import json
import os

ROOT = os.path.dirname(os.path.dirname(os.path.abspath(__file__)))
PY = "/venv/bin/python"

CHECKS = {
    "C01": dict(cat="exploration",
        text="Held on the generated executions only: real GeminiServerProtocol driven by scripted event orders on a virtual clock (L1, incl. the production wiring captured from start_server on hostile capsules) and through both real TLS layers in-process (L2); a response-stream automaton judges every connection (exactly one well-formed header, body only for 2x, closed, nothing after). Handler/middleware outcomes cover 16 exception types (incl. CancelledError, exceptions whose __str__ raises), hostile messages, wrongly typed response fields and message-less refusals. L2 also runs against a pipe of 16 B - 4 KiB whose client reads whatever arrives (what the network has not taken is still owed). One process also answers hundreds (thorough: thousands) of distinct valid request lines and then the early ones again. Titan lines with parameters at the edge of what fits in a line (sizes of up to 900 digits, very long media types and tokens) are part of the request mix.",
        note="FakeTransport models CPython 3.12 sslproto transport semantics; reach bounded by the generators (evidence: input_class / outcome / state_tuples).",
        tech="runtime monitoring: response-stream automaton over recorded connection traces (virtual-time protocol simulator + in-process TLS sandwich)"),
    "C02": dict(cat="exploration",
        text="Held on the generated trees and spellings: StaticFileHandler.handle is called on real directory trees (symlink topologies, prefix-sharing siblings, root via symlink) with traversal spellings aimed at every outside file; unique sentinels in every file decide containment and availability; a live sample goes through start_server. Document roots also change under running handlers (entries replaced by outside links and restored), judged against the tree at each request. Trees contain zero-byte files; every handler call runs under a budget of the process's own CPU time, so a request that is never answered is observed as such. The surroundings hold a sibling that is the root's own name in another letter case, and pages of several KiB served by name and as a directory's index.",
        note="Containment oracle uses os.path.realpath/commonpath; availability only required for symlink-free, UTF-8 named files (literal spelling only for pchar names).",
        tech="runtime monitoring: sentinel-token oracle on responses + audit-hook trail of open/listdir (L0 handler calls, L3 live sample)"),
    "C03": dict(cat="exploration",
        text="Held on the explored histories: TOFUDatabase histories (exhaustive to depth 4/5) and GeminiClient get/upload/redirect histories against scripted TLS peers whose certificates are swapped (RSA/EC/Ed25519 and DER-tampered certificates the X.509 parser rejects), over a 16-operation alphabet (quick: a fifth of the depth-3 histories; thorough: all of depth 3 and a third of depth 4) plus random long histories; after every step outcome and known_hosts are compared with an abstract pin map. Histories include replace-mode imports, export->import restores and calls inside `async with`; a separate scenario keeps 2-4 calls in flight towards an unpinned host whose peer rotates its certificate per connection. Pool certificates share subject, issuer and serial number (different keys); peers that answer before the request (end of handshake + response + close_notify in one segment) are included. One store object is also taken through thousands of hosts (thorough: 70 000) and asked again about the early ones with pinned and other certificates. Pins that are almost the presented fingerprint (one digit off, swapped, doubled, missing) are imported and verified.",
        note="Pin key = (lower-cased host, port) as derived from the URL; TOFU-off runs only check that the store stays untouched.",
        tech="runtime monitoring: step-by-step comparison of real outcomes and the sqlite table with a reference pin-map model over live TLS histories"),
    "C04": dict(cat="exploration",
        text="Held on the explored chains: real MiddlewareChain over real RateLimiter/AccessControl/CertificateAuth and scripted allow/deny/raise/slow components in every order (1-3 components), gemini and titan requests, reads and disconnects while the chain is pending, both TLS layers; recording proxies, spy handlers, an audit hook and tree snapshots give the per-connection order of chain/handler/filesystem events. A listed certificate, look-alikes (same names and serial, other key), unlisted and no certificate take turns on one process (L1 and PyOpenSSL). One chain also lives through a crowd of thousands of other addresses between a drained client's visits. Deny entries spelling the peer's address in other textual forms (IPv6 upper case / uncompressed, /128, /32, covering blocks) and two connections in flight on one chain are covered. Certificate rules with a present-but-empty list of allowed certificates admit nobody.",
        note="Expected decision is computed from configuration by the harness; scripted deny responses are well-formed.",
        tech="runtime monitoring: per-connection event-order check (mw_start/mw_end/handler_start/fs events) on the virtual-time simulator and TLS sandwich"),
    "C05": dict(cat="exploration",
        text="Held on the generated configurations: the production wiring captured from start_server (PyOpenSSL backend) runs in the TLS sandwich with client certificates really presented; rule lists as objects and through TOML; every file/directory is requested in many spellings; the sentinel in the body identifies what was served and the policy is evaluated on its canonical location; live sample on real sockets. Rule files are also loaded and wired by the `nauyaca serve` command itself (create_server stubbed); spellings include escapes of escapes and dot segments inside the query. Each multi-rule wiring also serves a long run of requests under a single rule before every client asks for every protected file.",
        note="Rule prefixes are directory-level; capsules have no symlinks; over-blocking judged only for canonical spellings.",
        tech="runtime monitoring: sentinel-identified resource vs first-matching-rule policy model, real TLS client certificates (L2 sandwich, L3 live)"),
    "C06": dict(cat="exploration",
        text="Held on the executions produced: every response stream decrypted by a real TLS client (in-process sandwich on both backends with ciphertext segmentations and a bounded pipe towards readers stalling up to 29 virtual seconds through the captured start_server wiring, plus live loopback servers with four reader profiles) is compared byte for byte with header+body and must end in a TLS close. Static files (incl. text with BOM, CRLF, lone CR, Unicode separators, NUL; per-location and server-wide size limits from TOML) are compared with their bytes on disk. Handlers answer 20 and other 2x statuses, immediately or after 45 virtual seconds; a bounded pipe with a client that keeps reading; static files are rewritten (same size, time stamps kept or not) while the server runs. 2x responses whose body cannot be sent as it is (lone surrogates, bytearray, memoryview) and index files reached through their directory are covered. Static files whose last character is cut off are served whole or refused.",
        note="Client side is CPython ssl/OpenSSL 3.0; sizes are the listed boundary set plus random ones, not every length; CPython's own 30 s ssl_shutdown_timeout bounds how long a stalled reader can be served.",
        tech="runtime monitoring: byte-exact stream comparison at the client boundary (position-counter bodies) on L2 sandwich and L3 live sockets"),
    "C07": dict(cat="exploration",
        text="Held on the explored segmentations: for each client byte string the single-read run is the baseline; all 2^(n-1) segmentations of short requests, all 1-/2-cut and random multi-cut ones of long requests, three schedules (burst, reads during a running handler), the real FileUploadHandler, and ciphertext cuts / multi-record reads / Finished+data coalescing on both TLS layers must reproduce response bytes, upload effect and <=1 handler entry. Uploads of 20 000 - 600 000 bytes go through both TLS layers with the ciphertext cut into reads of 16 KiB - 256 KiB. On the PyOpenSSL pump a request followed by bytes that are no valid TLS record is delivered in one read and in two; effects are compared.",
        note="Reads after transport.close() are not delivered (sslproto semantics).",
        tech="runtime monitoring: differential comparison against the single-read baseline + handler-entry counting (L1 simulator, L2 sandwich)"),
    "C08": dict(cat="exploration",
        text="Held on the generated lines: grammar-generated must-accept URIs, systematic corruptions and unconstrained bytes (uploads on and off, delivered in one or several reads) go through the real protocol with spy handler/middleware/upload handler; an independently written three-valued RFC 3986 recogniser decides what must be refused (and with which status) and what must arrive intact. The handler's normalized URL and the URL handed to the middleware chain are parsed back and must name the request's host and port. Titan tokens containing '=' (base64 padding) are must-accept.",
        note="Grey zones (chars outside the URI alphabet, empty userinfo/fragment, ports > 65535, IPvFuture, odd titan params) are undecided and counted.",
        tech="runtime monitoring: independent URI recogniser as oracle over spy-observed handler arguments (L1 simulator)"),
    "C09": dict(cat="exploration",
        text="Held on the generated configurations and peers: AccessControl built from objects, and TOML -> ServerConfig.from_toml -> get_access_control_config -> start_server wiring -> protocol with fake peer addresses, plus live sockets from 127.0.0.1 and ::1; decisions compared with an integer-arithmetic CIDR model at and around every network boundary. Lists are also loaded and wired by the `nauyaca serve` command itself (create_server stubbed). One component also decides about thousands (thorough: 70 000) of distinct peers and then about the early ones again. Single addresses whose low bits are all zero (2001:db8::, fe80::, 10.0.0.0) are single hosts.",
        note="Empty allow list and IPv4-mapped peers are grey; host-bits-set entries may prevent start-up or be read as the enclosing network.",
        tech="runtime monitoring: decision-by-decision comparison with an integer CIDR reference model (L0 objects, L1 captured wiring, L3 live)"),
    "C10": dict(cat="exploration",
        text="Held on the explored histories: the real RateLimiter with its clean-up task runs on a virtual-time loop; exhaustive gap sequences for capacity<=2 and random long histories spanning many clean-up ticks are compared step by step with an exact Fraction token bucket without eviction, checked against the window bound capacity+rate*T by an independent O(n) scan, and re-run per address for independence. The limiter is also observed behind both TLS layers as start_server wires them and as the `nauyaca serve` command wires it (file, file silent about limits, no file); address pools contain look-alike texts. Histories include crowds of up to 70 000 distinct addresses between the visits of drained clients.",
        note="Time is read only through middleware.time.monotonic (patched to the virtual clock); dyadic rates make float arithmetic exact, other rates use a 1e-9 grey band.",
        tech="runtime monitoring: online comparison with an exact-arithmetic reference bucket + offline window-bound checker on recorded decision histories (virtual clock)"),
    "C11": dict(cat="exploration",
        text="Held on the explored situations: GeminiClient get/upload/delete against scripted TLS peers in pinned/unpinned/changed/unparsable/redirect-to-changed situations with eager, lazy and late-reading peers; the peer's count of decrypted application bytes after draining to EOF and the client-side order of transport writes versus verify() returns are both monitored. Client configurations: plain TOFU, CA verification + TOFU (private CA that signed both certificates), TOFU with a client certificate; host spelled as address / lower / mixed / upper case; client reuse, `async with`, concurrent calls, store faults. Stores reached through relative paths across a chdir, used right after a failed import, holding pins of look-alike neighbours; look-alike certificates (same names and serial); the `nauyaca get` command with a scratch HOME. Clients built while the pin store could not be opened or initialised are used once it is healthy again.",
        note="Writes are observed at asyncio.sslproto._SSLProtocolTransport.write.",
        tech="runtime monitoring: peer-side byte counting + client-side event-order monitor (write vs verify_return) on live TLS connections"),
    "C12": dict(cat="fault_enumeration",
        text="Every SQL statement boundary (execute/commit on every connection, plus after-commit) of trust/verify/revoke/clear/import(merge|replace) is enumerated both as a crash point (operation runs in a forked child killed with os._exit at the boundary, file reopened) and as an injected OperationalError; import files carry each defect kind at every entry position; export->import round trips hostile host names. The table must equal the before or the after state. The command-line entry points (tofu import [--replace] / clear / revoke through typer's CliRunner) get the same enumeration; a store of mutually look-alike names (SQL wildcards, case, Unicode) checks that single-host operations touch exactly the named rows. Round trips include stores whose names differ only in letter case / Unicode form / IPv6 spelling on one port. Imports that succeed at the edges of the domain (no hosts, nothing new, only declined conflicts) are compared with the reference after-state.",
        note="Crash points are statement boundaries (SQLite's byte-level commit atomicity is trusted); last_seen excluded.",
        tech="runtime monitoring with fault injection: exhaustive statement-boundary crash/error enumeration, before/after table-dump oracle"),
    "C13": dict(cat="exploration",
        text="Held on the generated streams: both client protocol classes on a fake transport (all segmentations of short streams, cuts of long ones, close/reset at every prefix length, the 10 MiB cap boundary) and GeminiClient over TLS against peers that close, reset or stall at each stage; results are compared with an independent response-stream parser, and a pending future after connection end is a hang. Declared charsets range over every codec label Python knows (text encodings or not); raw mode (decode_text=False) and 2-3 overlapping calls on one client are included. Peers that stall before the TLS handshake completes (silent, half a record) on every entry point.",
        note="Grey status tokens and malformed charset parameters are undecided; L3 timeouts are watchdogs, verdicts use event order.",
        tech="runtime monitoring: independent response parser as oracle + future-resolution monitor (L1 virtual loop, L3 live peers)"),
    "C14": dict(cat="fault_enumeration",
        text="FileUploadHandler (also via ServerConfig.get_upload_handler and through the protocol) on upload trees with symlinks and prefix-sharing siblings; every stored/replaced/deleted upload is re-run with RLIMIT_FSIZE partial writes (0,1,half,size-1) and with an injected ENOSPC/EIO/EACCES at every index of the open/replace/rename/unlink/mkdir call sequence; a byte-exact diff of the directory and its surroundings plus the audit trail must show exactly one authorised change or none. One handler serves the same paths again while the upload tree is rearranged between requests; an accepted request must have changed the file its path denotes at that moment. Upload sizes go up to 4 MiB + 1 (powers of two and their neighbours); one handler also serves hundreds of requests in a row. What a request declares (media type, size) is taken from the line as written, not from the parsed request; uploads followed by stray reads (back to back, during a pending chain) go through the protocol. Handlers are also built from a configuration file with every key left out whose documented default is meant.",
        note="Single fault per request; parent-directory creation tolerated and counted.",
        tech="runtime monitoring with fault injection: tree-diff + audit-trail oracle under enumerated OS-call failpoints and real partial writes"),
    "C15": dict(cat="exploration",
        text="Held on the explored stalls: every prefix length of representative gemini/titan requests delivered in 1-3 reads then silence (virtual clock: 40 + close at exactly 30 s, never a quiescent loop with an open transport), slow handlers/middleware never cut by the timer, both TLS layers stalled before/inside/after every client handshake flight (TLS 1.2 and 1.3, with and without client certificate), and live sockets with shortened timeouts. close_notify after an incomplete request with TCP left open; complete requests in many delivery shapes with surplus bytes in the completing read are never answered by the request timer. Complete request lines of 900 - 1030 bytes (one read, split before / inside the CRLF) must be answered, never left to the timer.",
        note="Stdlib handshake bound is CPython's 60 s; after close CPython waits up to 30 s for the peer's close_notify (checked finite).",
        tech="runtime monitoring: virtual-time bounded-progress check (close time, quiescence with open transport) on L1/L2, live sample L3"),
    "C16": dict(cat="exploration",
        text="Held on the explored graphs: GeminiClient.get with TOFU against three scripted TLS servers implementing redirect graphs (all graphs for N<=2 over 15 target forms, chains/cycles up to length 8, random N<=8) x max_redirects 0..6 x follow on/off; peers' connection logs and a verify() counter are compared with the harness's walk of the graph. Seven fetches in flight on one client (chains at and over the limit, cycle, self-loop) check that each keeps its own count and history. Endless chains whose every target is derived from the URL just requested; the `nauyaca get` command with --max-redirects / --no-redirects. Node queries hold URLs themselves ('://' further along is not a second scheme). Chains whose hops each answer after a second are followed with a per-request timeout of three seconds.",
        note="Relative/empty/upper-case-scheme/oversize/malformed targets may yield an error or the unchanged 3x.",
        tech="runtime monitoring: connection-log and verify-call monitors vs reference redirect-graph walk (live TLS peers)"),
    "C17": dict(cat="exploration",
        text="Held on the generated requests: raw TLS client -> start_server with proxy/static locations loaded from TOML -> scripted upstream and decoy listeners; upstream request lines, decoy logs and audit-hook socket events (getaddrinfo/connect) are checked against the configured upstream and the RFC 3986 split of the client's line with the prefix mapping. Lines outside the URI alphabet that the server chooses to forward are held to the same mapping.",
        note="Requests outside the must-accept grammar and empty queries are grey.",
        tech="runtime monitoring: audit-hook socket monitor + upstream/decoy connection logs vs mapping oracle (live sockets)"),
    "C18": dict(cat="fault_enumeration",
        text="Raw TLS client -> start_server proxy (short location timeout for the stall stages, generous ones elsewhere) -> scripted upstream: well-formed responses of every status class, media type and declared charset must arrive byte-identical; each fault stage (refused, TLS failure, close/reset before/mid header, garbage headers, reset mid-body, stalls at each stage, oversize body) must yield exactly one well-formed 43 and a server that keeps serving; redirects to a decoy are relayed, early-disconnecting clients tolerated; 2-4 downstream requests in flight through one location must each get their own relay (or their own 43). Locations from a configuration file (timeout given / omitted) wired by start_server against a silent upstream in virtual time: 43 at the location's timeout. One wired location meets up to 70 connect-stage failures in a row (refused, unroutable, handshake failure, name resolution, reset, timeout) and then an upstream that is back.",
        note="A cleanly truncated 2x body cannot be told from a complete one; upstream metas with bare CR/LF or >1024 bytes may be 43 or sanitised.",
        tech="runtime monitoring with fault injection: downstream/upstream byte comparison and response automaton under scripted upstream faults (live sockets)"),
    "C19": dict(cat="exploration",
        text="Held on the generated URLs: every grammar-generated or mutated URL the library accepts is normalised, re-parsed, compared (host, port, path, query) with the independent RFC 3986 split and re-normalised; live round trips GeminiClient.get -> server on 127.0.0.1/localhost/[::1] compare what the handler sees with what the caller asked for. Every other shard judges its URLs in a process that has first used the client (redirects of every shape, uploads, a pin store); live round trips include URLs holding scheme-like text.",
        note="Host comparison case-insensitive; '' == '/' for paths; empty query == no query.",
        tech="runtime monitoring: round-trip/idempotence oracle against an independent URI recogniser (L0 calls, L3 live client/server)"),
    "C20": dict(cat="exploration",
        text="Held on the probed cells: real handshakes offering exactly one protocol version (TLS 1.0-1.3, SECLEVEL 0) against all four start_server construction paths and both factory functions with client-cert request on/off; client contexts (TOFU, CA, GeminiClient.get) against peers capped at TLS 1.0/1.1; plaintext and random bytes to every server variant, and (virtual time, both TLS layers) peers that send nothing / a few bytes / partial records and then wait past every timeout - everything ever written to the raw socket is inspected. Each refusal is paired with a control peer proving the old version is otherwise negotiable here. Certificate / key files that are out of order at start-up (nine kinds): refuse to start or listen with TLS; what the `nauyaca serve` command listens with is probed for clear text and, at security level 0, for the version floor. Servers that follow one another in one process (built, lowered to security level 0, probed, collected) are each offered TLS 1.1; the controls use PyOpenSSL / ssl directly, never nauyaca code. The serve command is also started with its material given through NAUYACA_* variables; every other successive context is built under an operator-like environment (OPENSSL_CONF, SSL_CERT_FILE, SSLKEYLOGFILE). A child interpreter started with -O builds both factories' contexts and is offered TLS 1.0 / 1.1 as well.",
        note="SSLv3 cannot be offered by this interpreter (recorded as unreachable).",
        tech="runtime monitoring: control-validated handshake probing and plaintext probes on live sockets"),
}

NOT_YET = "check for this property is not built yet in this session (planned: DESIGN.md section 3); not a statement that the technique cannot apply"


def main():
    props = [json.loads(line)["id"] for line in open(os.path.join(ROOT, "properties.jsonl"))]
    checks = []
    na = []
    for pid in props:
        c = CHECKS.get(pid)
        if not c:
            na.append({"property_id": pid, "reason": NOT_YET})
            continue
        checks.append(
            {
                "property_id": pid,
                "quick_cmd": f"{PY} -m vf.run {pid} --tier quick",
                "thorough_cmd": f"{PY} -m vf.run {pid} --tier thorough",
                "evidence_file": f"evidence/{pid}.json",
                "replay_cmd_template": f"{PY} -m vf.run {pid} --replay {{path}}",
                "engine": "vf",
                "level_claimed": {"category": c["cat"], "text": c["text"], "design_ref": f"DESIGN.md section 3, {pid}"},
                "level_note": c["note"],
                "technique": c["tech"],
            }
        )
    m = {
        "version": 1,
        "setup_cmd": f"{PY} -m compileall -q vf checks tools",
        "hooks": {
            "guard": "NAUYACA_VERIF",
            "enable": "no in-tree hooks: every observation point is reached from outside (fake transports, audit hooks, sys.monitoring, module-constant patching, factory capture); checks import /repo/src (or $VF_REPO/src) directly, so they always run the current working tree",
            "baseline_off_cmd": "cd /repo && env -u NAUYACA_VERIF /venv/bin/python -m pytest -ra -q -p no:cacheprovider --timeout=900 --continue-on-collection-errors",
            "source_commits": [],
            "add_only": True,
        },
        "engines": [
            {
                "name": "vf",
                "path": "vf/",
                "serves_properties": [c["property_id"] for c in checks],
                "kind_free_text": "runtime monitoring: real nauyaca code under generated, hostile and fault-injected workloads on a virtual-time event loop, an in-process TLS sandwich and live loopback sockets; oracles are trace automata and small reference models; evidence reports observed events, states and outcome classes",
            }
        ],
        "checks": checks,
        "notes": "Exit codes of every command: 0 held on everything explored, 1 with VIOLATION lines, 2 inconclusive (a deciding monitor saw too few events or a watchdog fired). Known findings: known_findings.json.",
        "not_applicable": na,
    }
    with open(os.path.join(ROOT, "MANIFEST.json"), "w") as f:
        json.dump(m, f, indent=1)
        f.write("\n")


if __name__ == "__main__":
    main()
