#!/usr/bin/env python3
"""Regenerate MANIFEST.json from the table below (keeps it schema-valid at all times)."""
import json
import os

ROOT = os.path.dirname(os.path.dirname(os.path.abspath(__file__)))
PY = "/venv/bin/python"

CHECKS = {
    "C01": dict(
        cat="exploration",
        text="Held on the generated executions only: real GeminiServerProtocol driven by scripted event orders on a virtual clock (L1) and through both real TLS layers in-process (L2); a response-stream automaton judges every connection.",
        note="FakeTransport models CPython 3.12 sslproto transport semantics; reach bounded by the generators (evidence: input_class / outcome / state_tuples).",
        tech="runtime monitoring: response-stream automaton over recorded connection traces (virtual-time protocol simulator + in-process TLS sandwich)",
    ),
    "C06": dict(
        cat="exploration",
        text="Held on the executions produced: every response stream decrypted by a real TLS client (in-process sandwich on both backends with ciphertext segmentations, plus live loopback servers started through start_server with four reader profiles) is compared byte for byte with header+body the handler returned and must end in a TLS close.",
        note="Client side is CPython ssl/OpenSSL 3.0; sizes are the listed boundary set plus random ones, not every length; static files are text.",
        tech="runtime monitoring: byte-exact stream comparison at the client boundary (position-counter bodies) on L2 sandwich and L3 live sockets",
    ),
}

NOT_YET = "check for this property is not built yet in this session (planned: DESIGN.md section 3); not a statement that the technique cannot apply"


def main():
    props = [json.loads(line)["id"] for line in open(os.path.join(ROOT, "properties.jsonl"))]
    checks = []
    na = []
    for pid in props:
        c = CHECKS.get(pid)
        if not c:
            na.append({"property_id": pid, "reason": NOT_YET})
            continue
        checks.append(
            {
                "property_id": pid,
                "quick_cmd": f"{PY} -m vf.run {pid} --tier quick",
                "thorough_cmd": f"{PY} -m vf.run {pid} --tier thorough",
                "evidence_file": f"evidence/{pid}.json",
                "replay_cmd_template": f"{PY} -m vf.run {pid} --replay {{path}}",
                "engine": "vf",
                "level_claimed": {"category": c["cat"], "text": c["text"], "design_ref": f"DESIGN.md section 3, {pid}"},
                "level_note": c["note"],
                "technique": c["tech"],
            }
        )
    m = {
        "version": 1,
        "setup_cmd": f"{PY} -m compileall -q vf checks tools",
        "hooks": {
            "guard": "NAUYACA_VERIF",
            "enable": "no in-tree hooks: every observation point is reached from outside (fake transports, audit hooks, sys.monitoring, module-constant patching, factory capture); checks import /repo/src (or $VF_REPO/src) directly, so they always run the current working tree",
            "baseline_off_cmd": "cd /repo && env -u NAUYACA_VERIF /venv/bin/python -m pytest -ra -q -p no:cacheprovider --timeout=900 --continue-on-collection-errors",
            "source_commits": [],
            "add_only": True,
        },
        "engines": [
            {
                "name": "vf",
                "path": "vf/",
                "serves_properties": [c["property_id"] for c in checks],
                "kind_free_text": "runtime monitoring: real nauyaca code under generated, hostile and fault-injected workloads on a virtual-time event loop, an in-process TLS sandwich and live loopback sockets; oracles are trace automata and small reference models; evidence reports observed events, states and outcome classes",
            }
        ],
        "checks": checks,
        "notes": "Exit codes of every command: 0 held on everything explored, 1 with VIOLATION lines, 2 inconclusive (a deciding monitor saw too few events or a watchdog fired). Known findings: known_findings.json.",
        "not_applicable": na,
    }
    with open(os.path.join(ROOT, "MANIFEST.json"), "w") as f:
        json.dump(m, f, indent=1)
        f.write("\n")


if __name__ == "__main__":
    main()
